(* C10 - Landscape p-norms and the sup norm equal the integrals they name.
   Only statements here; every proof is `exact <lemma of Proofs/PNorm*.v>`.
   Spec: Spec/PNormS.v (closed-form integral of |l|^p over a segment, norm_pow = sum over depths and
   segments, sup_spec = largest |y|).  Model: Model/PNormM.v (`seg`, `norm_pow_m` = auxiliary.py:_p_norm
   after fixes/C10_pnorm_crossing.patch; `Legacy` = the pinned code).  The models return the p-th power
   of the norm; Some _ = no division by zero occurred. *)
From Coq Require Import QArith Qabs List.
From Persim Require Import Lib.PL Spec.PNormS Model.PNormM
  Proofs.PNormRefute Proofs.PNormP Proofs.PNormLaws Proofs.PNormSup.
Import ListNotations.
Open Scope Q_scope.

(* T1: one segment, ordinates on the same side of the axis (or touching it) *)
Theorem seg_closed_form_same_sign : forall p x0 y0 x1 y1, (1 <= p)%nat -> crosses y0 y1 = false ->
  exists v, seg p (x0, y0) (x1, y1) = Some v /\
            v == (x1 - x0) * gsum (Qabs y0) (Qabs y1) p / nQ (S p).
Proof. exact seg_same_sign. Qed.
Print Assumptions seg_closed_form_same_sign.

(* T1: one segment that crosses the axis *)
Theorem seg_closed_form_crossing : forall p x0 y0 x1 y1, (1 <= p)%nat -> crosses y0 y1 = true ->
  exists v, seg p (x0, y0) (x1, y1) = Some v /\
            v == (x1 - x0) * (pw (Qabs y0) (S p) + pw (Qabs y1) (S p)) / (nQ (S p) * (Qabs y0 + Qabs y1)).
Proof. exact seg_crossing. Qed.
Print Assumptions seg_closed_form_crossing.

(* T1 headline: for EVERY list of breakpoint lists (sign changes, flat and nearly flat pieces, even
   repeated abscissae) and every integer p >= 1 the model's `result` is the sum over depths and segments
   of the integral of |l|^p, and no division by zero happens on the way (finiteness) *)
Theorem pnorm_pow_correct : forall p L, (1 <= p)%nat ->
  exists v, norm_pow_m p L = Some v /\ v == norm_pow p L.
Proof. exact norm_pow_m_correct. Qed.
Print Assumptions pnorm_pow_correct.

Theorem pnorm_exact_class_correct : forall p L, (1 <= p)%nat ->
  exists v, exact_p_norm_pow p L = Some v /\ v == norm_pow p L.
Proof. exact exact_p_norm_correct. Qed.
Print Assumptions pnorm_exact_class_correct.

(* the grid class integrates the polyline through (grid_i, values_i) *)
Theorem pnorm_approx_class_correct : forall p a b n vals, (1 <= p)%nat ->
  exists v, approx_p_norm_pow p a b n vals = Some v /\ v == norm_pow p (values_to_pairs a b n vals).
Proof. exact approx_p_norm_correct. Qed.
Print Assumptions pnorm_approx_class_correct.

(* T1: the code at the pinned commit: [[(0,-1),(2,1)]], p = 2: it returns 0, the integral is 2/3 *)
Theorem pnorm_legacy_refuted :
  exists (L : landscape) (p : nat), wf L /\ (1 <= p)%nat /\
    (exists v, Legacy.norm_pow p L = Some v /\ v == 0) /\
    norm_pow p L == 2 # 3 /\ (exists v, norm_pow_m p L = Some v /\ v == 2 # 3).
Proof. exact legacy_refuted. Qed.
Print Assumptions pnorm_legacy_refuted.

(* T1: sup norm of one depth: the largest |y| over the breakpoints bounds |f(t)| at every t and is attained *)
Theorem sup_norm_is_sup : forall l, incr l ->
  (forall t, Qabs (pl_eval l t) <= sup_pts l) /\
  (l <> [] -> exists t, Qabs (pl_eval l t) == sup_pts l).
Proof. exact sup_pts_is_sup. Qed.
Print Assumptions sup_norm_is_sup.

(* ... and of a landscape: over all depths *)
Theorem sup_norm_landscape_is_sup : forall L, wf L ->
  (forall l t, In l L -> Qabs (pl_eval l t) <= sup_spec L) /\
  (concat L <> [] -> exists l t, In l L /\ Qabs (pl_eval l t) == sup_spec L).
Proof. exact sup_spec_is_sup. Qed.
Print Assumptions sup_norm_landscape_is_sup.

(* the two sup_norm methods return it (max() of nothing raises: None) *)
Theorem exact_sup_norm_is_sup : forall L, concat L <> [] -> exists v, exact_sup_norm L = Some v /\ v == sup_spec L.
Proof. exact exact_sup_norm_correct. Qed.
Print Assumptions exact_sup_norm_is_sup.

Theorem approx_sup_norm_is_max : forall vals, concat vals <> [] ->
  exists v, approx_sup_norm vals = Some v /\ v == sup_pts (map (fun v => (0, v)) (concat vals)).
Proof. exact approx_sup_norm_correct. Qed.
Print Assumptions approx_sup_norm_is_max.

(* T1 consequences.  ||c P||^p = |c|^p ||P||^p *)
Theorem pnorm_homogeneous : forall p c L, (1 <= p)%nat ->
  exists v w, norm_pow_m p (scale c L) = Some v /\ norm_pow_m p L = Some w /\ v == pw (Qabs c) p * w.
Proof. exact norm_pow_m_scale. Qed.
Print Assumptions pnorm_homogeneous.

(* the zero function, e.g. P - P, has norm 0 *)
Theorem pnorm_zero : forall p L, (1 <= p)%nat -> Forall zero_pts L -> exists v, norm_pow_m p L = Some v /\ v == 0.
Proof. exact norm_pow_m_zero. Qed.
Print Assumptions pnorm_zero.

(* the integral is non-negative, so the p-th root exists *)
Theorem pnorm_pow_nonneg : forall p L, wf L -> 0 <= norm_pow p L.
Proof. exact norm_pow_nonneg. Qed.
Print Assumptions pnorm_pow_nonneg.

(* non-vacuity *)
Example c10_hyp_satisfiable : wf [[(0, -1); (2, 1)]; [(0, 0); (1, 1); (2, 1)]] /\ crosses (-1) 1 = true /\ crosses 0 1 = false.
Proof. split. repeat constructor. split; reflexivity. Qed.

(* ------------------------------------------------------------------ T2: "equals the integral it names" *)
From Coq Require Import Reals Qreals.
From Coquelicot Require Import Coquelicot.
From Persim Require Import Proofs.PNormRInt.

(* the spec's closed form IS the Riemann integral of |l|^p over the segment, l the straight line
   through (x0,y0) and (x1,y1); with pnorm_pow_correct: the model's `result` is the sum over depths and
   segments of these integrals *)
Theorem seg_closed_form_is_RInt : forall p x0 y0 x1 y1, (x0 < x1)%Q ->
  is_RInt (fun t => (Rabs (lin (Q2R x0) (Q2R y0) (Q2R x1) (Q2R y1) t) ^ p)%R) (Q2R x0) (Q2R x1)
          (Q2R (seg_int p (x0, y0) (x1, y1))) /\
  RInt (fun t => (Rabs (lin (Q2R x0) (Q2R y0) (Q2R x1) (Q2R y1) t) ^ p)%R) (Q2R x0) (Q2R x1)
  = Q2R (seg_int p (x0, y0) (x1, y1)).
Proof. intros p x0 y0 x1 y1 D. split. exact (seg_int_is_RInt p x0 y0 x1 y1 D). exact (seg_int_eq_RInt p x0 y0 x1 y1 D). Qed.
Print Assumptions seg_closed_form_is_RInt.

(* `lin` is the interpolant pl_eval of Lib/PL.v on the segment *)
Theorem interpolant_is_line : forall x0 y0 x1 y1 t, (x0 < x1)%Q -> (x0 <= t <= x1)%Q ->
  Q2R (pl_eval ((x0, y0) :: (x1, y1) :: nil) t) = lin (Q2R x0) (Q2R y0) (Q2R x1) (Q2R y1) (Q2R t).
Proof. exact pl_eval_is_lin. Qed.
Print Assumptions interpolant_is_line.

(* ================= T2 glue with C01 / C03 / C09: stability of landscapes (coq/Proofs/LandscapeStabP.v) ================= *)
From Coq Require Import Qminmax.
From Persim Require Lib.Kth Spec.PartialMatching Spec.BottleneckS Spec.LandscapeS Spec.LandArithS Model.LandArithM
  Model.SweepM Model.BneckM Proofs.MetricInstP Proofs.BneckOracleP Proofs.LandscapeStabP.
Open Scope Q_scope.

(* for EVERY partial matching m of two finite diagrams (any points, no sign or order hypothesis), every depth k >= 1 and
   every t: |lambda_k(D)(t) - lambda_k(D')(t)| <= the largest cost m pays (L-infinity between matched points, (d-b)/2
   for an unmatched one); lambda_k = land = k-th largest tent (Lib/PL.v) *)
Theorem landscape_stability_any_matching : forall (D D' : list bar) m, PartialMatching.valid_for D D' m ->
  forall (k : nat) (t : Q), (1 <= k)%nat -> Qabs (land D k t - land D' k t) <= BottleneckS.bcost D D' m.
Proof. exact LandscapeStabP.landscape_stability_matching. Qed.
Print Assumptions landscape_stability_any_matching.

(* the clause of the property: the sup norm of the difference of two diagrams' landscapes never exceeds their bottleneck
   distance (is_bottleneck = the minimum over all partial matchings of the largest cost, Spec/BottleneckS.v) *)
Theorem landscape_stability : forall (D D' : list bar) v, BottleneckS.is_bottleneck D D' v ->
  forall (k : nat) (t : Q), (1 <= k)%nat -> Qabs (land D k t - land D' k t) <= v.
Proof. exact LandscapeStabP.landscape_stability_P. Qed.
Print Assumptions landscape_stability.

(* ... on the models: L, L' the sweeps (C03, shortcut off) of two diagrams of positive-length bars; the C09 model's
   difference L - L' evaluates (both variants), is pointwise the difference of the k-th largest tents, and its sup norm
   (sup_spec, and whatever number exact_sup_norm returns) is at most the bottleneck distance *)
Theorem exact_landscape_stability : forall variant deg (D D' : list bar) L L' v,
  (forall a, In a D -> fst a < snd a) -> (forall a, In a D' -> fst a < snd a) ->
  SweepM.sweep false D = Some L -> SweepM.sweep false D' = Some L' -> BottleneckS.is_bottleneck D D' v ->
  exists R, LandArithM.e_sub variant (LandArithM.mkE deg L) (LandArithM.mkE deg L') = LandArithM.Ok R /\
    (forall k t, LandArithS.evalL (LandArithM.e_cp R) k t == land D (S k) t - land D' (S k) t) /\
    (forall k t, Qabs (LandArithS.evalL (LandArithM.e_cp R) k t) <= v) /\
    sup_spec (LandArithM.e_cp R) <= v /\
    (forall s, exact_sup_norm (LandArithM.e_cp R) = Some s -> s <= v).
Proof. exact LandscapeStabP.exact_landscape_stability_P. Qed.
Print Assumptions exact_landscape_stability.

(* ... hence at most the number the bottleneck model (C01) returns, for every maximum-matching routine *)
Theorem exact_landscape_stability_model : forall oracle variant deg (D D' : list bar) L L',
  BneckM.max_matching_oracle oracle ->
  (forall a, In a D -> fst a < snd a) -> (forall a, In a D' -> fst a < snd a) ->
  SweepM.sweep false D = Some L -> SweepM.sweep false D' = Some L' ->
  exists R w, LandArithM.e_sub variant (LandArithM.mkE deg L) (LandArithM.mkE deg L') = LandArithM.Ok R /\
    BneckM.bottleneck_model oracle (map MetricInstP.liftQ D) (map MetricInstP.liftQ D') = Some (BneckM.CFin w) /\
    BottleneckS.is_bottleneck D D' w /\
    sup_spec (LandArithM.e_cp R) <= w /\
    (forall s, exact_sup_norm (LandArithM.e_cp R) = Some s -> s <= w).
Proof. exact LandscapeStabP.exact_landscape_stability_model_P. Qed.
Print Assumptions exact_landscape_stability_model.

(* the sup norm of the C09 model's sum / difference is at most the sum of the sup norms *)
Theorem sup_norm_triangle : forall variant A B,
  LandArithS.wfL (LandArithM.e_cp A) -> LandArithS.wfL (LandArithM.e_cp B) -> LandArithM.e_deg A = LandArithM.e_deg B ->
  (exists R, LandArithM.e_add variant A B = LandArithM.Ok R /\
     sup_spec (LandArithM.e_cp R) <= sup_spec (LandArithM.e_cp A) + sup_spec (LandArithM.e_cp B)) /\
  (exists R, LandArithM.e_sub variant A B = LandArithM.Ok R /\
     sup_spec (LandArithM.e_cp R) <= sup_spec (LandArithM.e_cp A) + sup_spec (LandArithM.e_cp B)).
Proof. exact LandscapeStabP.sup_norm_triangle_both. Qed.
Print Assumptions sup_norm_triangle.

(* non-vacuity.  D = {(0,4),(1,3)}, D' = {(0,3)}: the bottleneck distance is 1 (the brute-force maximum-matching routine of
   C01 run inside Coq), the hypotheses of exact_landscape_stability hold, the difference evaluates, exact_sup_norm returns
   1: the bound is attained *)
Example landscape_stability_instance :
  let D := [(0, 4); (1, 3)] in let D' := ((0, 3) :: nil) in
  BottleneckS.is_bottleneck D D' 1 /\
  (forall a, In a D -> fst a < snd a) /\ (forall a, In a D' -> fst a < snd a) /\
  match SweepM.sweep false D, SweepM.sweep false D' with
  | Some L, Some L' =>
      match LandArithM.e_sub LandArithM.Fixed (LandArithM.mkE 1 L) (LandArithM.mkE 1 L') with
      | LandArithM.Ok R => match exact_sup_norm (LandArithM.e_cp R) with Some s => Qeq_bool s 1 | None => false end
      | _ => false end
  | _, _ => false end = true /\
  Qabs (land D 2 2 - land D' 2 2) == 1.
Proof. cbv zeta. split; [|split; [|split; [|split]]].
  - assert (W : forall S : list (Q * Q), (forall p, In p S -> Qle_bool (fst p) (snd p) = true) -> BottleneckS.wfdgm S).
    { intros S H p Hp. apply Qle_bool_iff. apply H; auto. }
    destruct (MetricInstP.bn_model_value BneckOracleP.brute_oracle BneckOracleP.max_matching_oracle_exists [(0, 4); (1, 3)] ((0, 3) :: nil)) as [_ I].
    + apply W. intros p H; simpl in H; repeat (destruct H as [H|H]; [subst p; reflexivity|]); contradiction.
    + apply W. intros p H; simpl in H; repeat (destruct H as [H|H]; [subst p; reflexivity|]); contradiction.
    + assert (E : MetricInstP.bn_model BneckOracleP.brute_oracle [(0, 4); (1, 3)] ((0, 3) :: nil) = 2 # 2) by (vm_compute; reflexivity).
      rewrite E in I. assert (H : 1 == 2 # 2) by reflexivity. destruct I as [(m & V & Em) LB]. split.
      * exists m. split; [exact V|]. rewrite Em. symmetry. exact H.
      * intros m' V'. apply Qle_trans with (2 # 2); [apply Qle_bool_iff; reflexivity|exact (LB m' V')].
  - intros a H; simpl in H; repeat (destruct H as [H|H]; [subst a; reflexivity|]); contradiction.
  - intros a H; simpl in H; repeat (destruct H as [H|H]; [subst a; reflexivity|]); contradiction.
  - vm_compute. reflexivity.
  - vm_compute. reflexivity. Qed.

(* ... and at every REAL abscissa: kthR = k-th largest entry counted with multiplicity (Proofs/KthReal.v, the reading
   C03.sweep_is_kth_largest_tent_at_every_real_t uses), so the bound is on the sup over all real t *)
From Persim Require Spec.LandscapeRealS Proofs.KthReal Proofs.LandscapeStabR.
Theorem landscape_stability_every_real_t : forall (D D' : list bar) v, BottleneckS.is_bottleneck D D' v ->
  forall (k : nat) (t : R), (1 <= k)%nat ->
    (Rabs (KthReal.kthR (map (fun a => Rmax 0 (Rmin (t - Q2R (fst a)) (Q2R (snd a) - t))) D) k
           - KthReal.kthR (map (fun a => Rmax 0 (Rmin (t - Q2R (fst a)) (Q2R (snd a) - t))) D') k) <= Q2R v)%R.
Proof. exact LandscapeStabR.landscape_stability_R. Qed.
Print Assumptions landscape_stability_every_real_t.

(* the critical pairs the sweep (C03) returns for two diagrams of positive-length bars, read as piecewise-linear functions
   of a real abscissa (pl_evalR, Spec/LandscapeRealS.v), differ at every depth and every real t by at most the bottleneck
   distance *)
Theorem sweep_stability_every_real_t : forall (D D' : list bar) L L' v,
  (forall a, In a D -> fst a < snd a) -> (forall a, In a D' -> fst a < snd a) ->
  SweepM.sweep false D = Some L -> SweepM.sweep false D' = Some L' -> BottleneckS.is_bottleneck D D' v ->
  forall (k : nat) (t : R), (1 <= k)%nat ->
    (Rabs (LandscapeRealS.pl_evalR (map LandscapeRealS.rp (nth (k - 1) L nil)) t
           - LandscapeRealS.pl_evalR (map LandscapeRealS.rp (nth (k - 1) L' nil)) t) <= Q2R v)%R.
Proof. exact LandscapeStabR.sweep_stability_R. Qed.
Print Assumptions sweep_stability_every_real_t.
(* non-vacuity of the two theorems above: their hypotheses are those of exact_landscape_stability, satisfied by
   landscape_stability_instance (D = {(0,4),(1,3)}, D' = {(0,3)}, v = 1) *)

(* T2: the sup norm is a bound at every REAL abscissa too: for EVERY list of breakpoint lists (no hypothesis), every depth
   and every real t, the piecewise-linear reading pl_evalR is at most sup_spec in absolute value (with
   sup_norm_landscape_is_sup, where the value is attained at a breakpoint, sup_spec is the supremum over the reals) *)
From Persim Require Proofs.LandscapeSupR.
Theorem sup_norm_bounds_every_real_t : forall (L : landscape) (k : nat) (t : R),
  (Rabs (LandscapeRealS.pl_evalR (map LandscapeRealS.rp (nth k L nil)) t) <= Q2R (sup_spec L))%R.
Proof. exact LandscapeSupR.sup_spec_bounds_evalR. Qed.
Print Assumptions sup_norm_bounds_every_real_t.

(* the C09 model's difference of the sweeps of two diagrams, read at a real abscissa, is at most the bottleneck distance *)
Theorem exact_landscape_stability_every_real_t : forall variant deg (D D' : list bar) L L' v,
  (forall a, In a D -> fst a < snd a) -> (forall a, In a D' -> fst a < snd a) ->
  SweepM.sweep false D = Some L -> SweepM.sweep false D' = Some L' -> BottleneckS.is_bottleneck D D' v ->
  exists Df, LandArithM.e_sub variant (LandArithM.mkE deg L) (LandArithM.mkE deg L') = LandArithM.Ok Df /\
    forall (k : nat) (t : R),
      (Rabs (LandscapeRealS.pl_evalR (map LandscapeRealS.rp (nth k (LandArithM.e_cp Df) nil)) t) <= Q2R v)%R.
Proof. exact LandscapeSupR.exact_difference_sup_R. Qed.
Print Assumptions exact_landscape_stability_every_real_t.

(* end to end through the public entry points: PersLandscapeExact(dgms, h) and PersLandscapeExact(dgms', h') (C03 model,
   one trailing infinite bar dropped, positive-length finite bars D, D') both return; their difference (C09 model)
   evaluates; bottleneck (C01 model, any maximum-matching routine) returns the bottleneck distance w of D and D'; and the
   sup norm of the difference (C10 model) is at most w *)
Theorem exact_landscape_entry_stability : forall oracle variant deg dgms h dg (D : list bar) dgms' h' dg' (D' : list bar),
  BneckM.max_matching_oracle oracle ->
  nth_error dgms h = Some dg -> SweepM.finite_bars (SweepM.strip_trailing_inf dg) = Some D -> (forall a, In a D -> fst a < snd a) ->
  nth_error dgms' h' = Some dg' -> SweepM.finite_bars (SweepM.strip_trailing_inf dg') = Some D' -> (forall a, In a D' -> fst a < snd a) ->
  exists L L' Df w,
    SweepM.exact_landscape false true dgms h = SweepM.Ok L /\ SweepM.exact_landscape false true dgms' h' = SweepM.Ok L' /\
    LandArithM.e_sub variant (LandArithM.mkE deg L) (LandArithM.mkE deg L') = LandArithM.Ok Df /\
    BneckM.bottleneck_model oracle (map MetricInstP.liftQ D) (map MetricInstP.liftQ D') = Some (BneckM.CFin w) /\
    BottleneckS.is_bottleneck D D' w /\
    (forall k t, LandArithS.evalL (LandArithM.e_cp Df) k t == land D (S k) t - land D' (S k) t) /\
    sup_spec (LandArithM.e_cp Df) <= w /\
    (forall s, exact_sup_norm (LandArithM.e_cp Df) = Some s -> s <= w).
Proof. exact LandscapeStabP.exact_landscape_entry_stability_P. Qed.
Print Assumptions exact_landscape_entry_stability.

Example entry_stability_hyp_satisfiable :
  nth_error (((0, Some 2) :: nil) :: ((0, Some 4) :: (1, Some 3) :: (0, None) :: nil) :: nil) 1 = Some ((0, Some 4) :: (1, Some 3) :: (0, None) :: nil) /\
  SweepM.finite_bars (SweepM.strip_trailing_inf ((0, Some 4) :: (1, Some 3) :: (0, None) :: nil)) = Some ((0, 4) :: (1, 3) :: nil).
Proof. split; reflexivity. Qed.

(* ================= the triangle inequality (Minkowski) of the p-norm, every integer p >= 1 =================
   Proofs/PNormMinkowskiR.v (convexity of x^p, linear form of Minkowski for RInt), PNormMinkowskiInt.v (a whole depth as one
   Riemann integral; identities at all rational abscissae hold at all real ones), PNormMinkowski.v (sum over the depths,
   roots, the C09 models of + and -).  norm_pow p L is the p-th power of the norm, so the root-free statement
   "||L||^p <= A^p -> ||M||^p <= B^p -> ||S||^p <= (A+B)^p for all rationals A, B >= 0" is the triangle inequality; the
   statement with real p-th roots follows it.  The theorems below depend on the standard-library axioms of the classical
   reals (the proofs integrate), also where the statement is over Q. *)
From Persim Require Proofs.PNormMinkowskiR Proofs.PNormMinkowskiInt Proofs.PNormMinkowski.

(* T2, "equals the integral it names" for a whole depth: for strictly increasing abscissae, depth_pow p l is the Riemann
   integral of |f|^p, f the breakpoint list read as a function of a real abscissa (0 outside the breakpoints), over ANY
   interval [lo, hi] that contains the breakpoints; norm_pow is by definition the sum of these over the depths *)
Theorem depth_pow_is_RInt : forall (p : nat) (l : list pt) (lo hi : R), (1 <= p)%nat -> incr l -> (lo <= hi)%R ->
  (forall q, In q l -> (lo <= Q2R (fst q) <= hi)%R) ->
  is_RInt (fun t => (Rabs (LandscapeRealS.pl_evalR (map LandscapeRealS.rp l) t) ^ p)%R) lo hi (Q2R (depth_pow p l)).
Proof. exact PNormMinkowski.depth_pow_RInt. Qed.
Print Assumptions depth_pow_is_RInt.

(* an identity c = a + b between breakpoint lists that holds at every rational abscissa holds at every real abscissa *)
Theorem pointwise_sum_at_every_real_t : forall a b c : list pt, incr a -> incr b -> incr c ->
  (forall t : Q, pl_eval c t == pl_eval a t + pl_eval b t) ->
  forall t : R, (LandscapeRealS.pl_evalR (map LandscapeRealS.rp c) t =
                 LandscapeRealS.pl_evalR (map LandscapeRealS.rp a) t + LandscapeRealS.pl_evalR (map LandscapeRealS.rp b) t)%R.
Proof. exact PNormMinkowskiInt.pointwise_sum_Q_to_R. Qed.
Print Assumptions pointwise_sum_at_every_real_t.

(* Minkowski for one depth: c any breakpoint list that is pointwise the sum of a and b (no hypothesis on the end ordinates) *)
Theorem pnorm_minkowski_depth : forall p (a b c : list pt) (A B : Q), (1 <= p)%nat -> incr a -> incr b -> incr c ->
  (forall t : Q, pl_eval c t == pl_eval a t + pl_eval b t) ->
  0 <= A -> 0 <= B -> depth_pow p a <= pw A p -> depth_pow p b <= pw B p -> depth_pow p c <= pw (A + B) p.
Proof. exact PNormMinkowski.minkowski_depth. Qed.
Print Assumptions pnorm_minkowski_depth.

(* ... with c the sum the C09 model of union_crit_pairs computes for one depth (either variant; C09.add_pointwise) *)
Theorem pnorm_minkowski_add_depth : forall v p a b, (1 <= p)%nat -> LandArithS.wf a -> LandArithS.wf b ->
  exists c, LandArithM.add_depth v a b = Some c /\
    forall A B : Q, 0 <= A -> 0 <= B -> depth_pow p a <= pw A p -> depth_pow p b <= pw B p -> depth_pow p c <= pw (A + B) p.
Proof. exact PNormMinkowski.minkowski_add_depth. Qed.
Print Assumptions pnorm_minkowski_add_depth.

(* Minkowski for landscapes: S is depth by depth and at every abscissa the sum of L and M; the three may have different
   numbers of depths, a missing depth is the zero function (evalL, Spec/LandArithS.v) *)
Theorem pnorm_minkowski : forall p (L M S : landscape) (A B : Q), (1 <= p)%nat -> wf L -> wf M -> wf S ->
  (forall k t, LandArithS.evalL S k t == LandArithS.evalL L k t + LandArithS.evalL M k t) ->
  0 <= A -> 0 <= B -> norm_pow p L <= pw A p -> norm_pow p M <= pw B p -> norm_pow p S <= pw (A + B) p.
Proof. exact PNormMinkowski.minkowski_sum. Qed.
Print Assumptions pnorm_minkowski.

(* ... and for the difference: || L - M || <= || L || + || M || *)
Theorem pnorm_minkowski_difference : forall p (L M S : landscape) (A B : Q), (1 <= p)%nat -> wf L -> wf M -> wf S ->
  (forall k t, LandArithS.evalL S k t == LandArithS.evalL L k t - LandArithS.evalL M k t) ->
  0 <= A -> 0 <= B -> norm_pow p L <= pw A p -> norm_pow p M <= pw B p -> norm_pow p S <= pw (A + B) p.
Proof. exact PNormMinkowski.minkowski_diff. Qed.
Print Assumptions pnorm_minkowski_difference.

(* the norm as a real number: the unique r >= 0 with r^p = norm_pow p L *)
Theorem pnorm_real_exists_unique : forall p (L : landscape), (1 <= p)%nat -> wf L ->
  exists r : R, ((0 <= r)%R /\ (r ^ p)%R = Q2R (norm_pow p L)) /\
    forall r' : R, (0 <= r')%R /\ (r' ^ p)%R = Q2R (norm_pow p L) -> r' = r.
Proof. exact PNormMinkowski.norm_exists. Qed.
Print Assumptions pnorm_real_exists_unique.

(* the triangle inequality with real p-th roots: || L + M ||_p <= || L ||_p + || M ||_p *)
Theorem pnorm_triangle_inequality : forall p (L M S : landscape) (rL rM rS : R), (1 <= p)%nat -> wf L -> wf M -> wf S ->
  (forall k t, LandArithS.evalL S k t == LandArithS.evalL L k t + LandArithS.evalL M k t) ->
  (0 <= rL)%R /\ (rL ^ p)%R = Q2R (norm_pow p L) -> (0 <= rM)%R /\ (rM ^ p)%R = Q2R (norm_pow p M) ->
  (0 <= rS)%R /\ (rS ^ p)%R = Q2R (norm_pow p S) -> (rS <= rL + rM)%R.
Proof. exact PNormMinkowski.minkowski_sum_R. Qed.
Print Assumptions pnorm_triangle_inequality.

Theorem pnorm_triangle_inequality_difference : forall p (L M S : landscape) (rL rM rS : R), (1 <= p)%nat -> wf L -> wf M -> wf S ->
  (forall k t, LandArithS.evalL S k t == LandArithS.evalL L k t - LandArithS.evalL M k t) ->
  (0 <= rL)%R /\ (rL ^ p)%R = Q2R (norm_pow p L) -> (0 <= rM)%R /\ (rM ^ p)%R = Q2R (norm_pow p M) ->
  (0 <= rS)%R /\ (rS ^ p)%R = Q2R (norm_pow p S) -> (rS <= rL + rM)%R.
Proof. exact PNormMinkowski.minkowski_diff_R. Qed.
Print Assumptions pnorm_triangle_inequality_difference.

(* on the models: X + Y (C09 model of __add__, either variant, operands with possibly different numbers of depths) evaluates,
   the C10 model of p_norm returns on all three, and the returned p-th powers satisfy Minkowski *)
Theorem pnorm_minkowski_model_add : forall v p X Y, (1 <= p)%nat ->
  LandArithS.wfL (LandArithM.e_cp X) -> LandArithS.wfL (LandArithM.e_cp Y) -> LandArithM.e_deg X = LandArithM.e_deg Y ->
  exists R nx ny nr, LandArithM.e_add v X Y = LandArithM.Ok R /\
    norm_pow_m p (LandArithM.e_cp X) = Some nx /\ norm_pow_m p (LandArithM.e_cp Y) = Some ny /\
    norm_pow_m p (LandArithM.e_cp R) = Some nr /\
    forall A B : Q, 0 <= A -> 0 <= B -> nx <= pw A p -> ny <= pw B p -> nr <= pw (A + B) p.
Proof. exact PNormMinkowski.minkowski_e_add. Qed.
Print Assumptions pnorm_minkowski_model_add.

Theorem pnorm_minkowski_model_sub : forall v p X Y, (1 <= p)%nat ->
  LandArithS.wfL (LandArithM.e_cp X) -> LandArithS.wfL (LandArithM.e_cp Y) -> LandArithM.e_deg X = LandArithM.e_deg Y ->
  exists R nx ny nr, LandArithM.e_sub v X Y = LandArithM.Ok R /\
    norm_pow_m p (LandArithM.e_cp X) = Some nx /\ norm_pow_m p (LandArithM.e_cp Y) = Some ny /\
    norm_pow_m p (LandArithM.e_cp R) = Some nr /\
    forall A B : Q, 0 <= A -> 0 <= B -> nx <= pw A p -> ny <= pw B p -> nr <= pw (A + B) p.
Proof. exact PNormMinkowski.minkowski_e_sub. Qed.
Print Assumptions pnorm_minkowski_model_sub.

(* the p-norm distance d(X, Y) = || X - Y ||_p of three landscapes: d(X, Z) <= d(X, Y) + d(Y, Z), root-free and with real
   roots; dxy, dyz, dxz are the p-th powers the p_norm model returns on the three model differences *)
Theorem pnorm_triangle : forall v p X Y Z, (1 <= p)%nat ->
  LandArithS.wfL (LandArithM.e_cp X) -> LandArithS.wfL (LandArithM.e_cp Y) -> LandArithS.wfL (LandArithM.e_cp Z) ->
  LandArithM.e_deg X = LandArithM.e_deg Y -> LandArithM.e_deg Y = LandArithM.e_deg Z ->
  exists XY YZ XZ dxy dyz dxz,
    LandArithM.e_sub v X Y = LandArithM.Ok XY /\ LandArithM.e_sub v Y Z = LandArithM.Ok YZ /\ LandArithM.e_sub v X Z = LandArithM.Ok XZ /\
    norm_pow_m p (LandArithM.e_cp XY) = Some dxy /\ norm_pow_m p (LandArithM.e_cp YZ) = Some dyz /\
    norm_pow_m p (LandArithM.e_cp XZ) = Some dxz /\
    (forall A B : Q, 0 <= A -> 0 <= B -> dxy <= pw A p -> dyz <= pw B p -> dxz <= pw (A + B) p) /\
    (forall r1 r2 r3 : R, (0 <= r1)%R /\ (r1 ^ p)%R = Q2R dxy -> (0 <= r2)%R /\ (r2 ^ p)%R = Q2R dyz ->
                          (0 <= r3)%R /\ (r3 ^ p)%R = Q2R dxz -> (r3 <= r1 + r2)%R).
Proof. exact PNormMinkowski.distance_triangle. Qed.
Print Assumptions pnorm_triangle.

(* non-vacuity.  a = tent with apex (1,1) on [0,3], b = inverted tent with apex (2,-1) on [0,3], p = 2: both have
   ||.||^2 = 1 = 1^2 (A = B = 1); their sum c (computed by the C09 model) has ordinates 1/2 at 1 and -1/2 at 2 - a segment
   that crosses the axis - and ||c||^2 = 1/4 <= (1+1)^2; all hypotheses of pnorm_minkowski_depth hold for a, b, c *)
Example minkowski_depth_hyp_satisfiable :
  let a := [(0, 0); (1, 1); (3, 0)] in let b := [(0, 0); (2, -1); (3, 0)] in
  exists c, LandArithM.add_depth LandArithM.Fixed a b = Some c /\
    incr a /\ incr b /\ incr c /\ (forall t : Q, pl_eval c t == pl_eval a t + pl_eval b t) /\
    0 <= 1 /\ depth_pow 2 a <= pw 1 2 /\ depth_pow 2 b <= pw 1 2 /\
    depth_pow 2 c == 1 # 4 /\ crosses (snd (nth 1 c (0, 0))) (snd (nth 2 c (0, 0))) = true /\
    LandArithS.wf a /\ LandArithS.wf b.
Proof. cbv zeta.
  assert (Wa : LandArithS.wf [(0, 0); (1, 1); (3, 0)]) by (repeat split; try discriminate; reflexivity).
  assert (Wb : LandArithS.wf [(0, 0); (2, -1); (3, 0)]) by (repeat split; try discriminate; reflexivity).
  destruct (LandArithP.add_depth_wf LandArithM.Fixed _ _ Wa Wb) as (c & E & Wc & H).
  exists c. split. exact E. split. apply Wa. split. apply Wb. split. apply Wc. split. exact H.
  assert (E' := E). vm_compute in E'. injection E' as E'. subst c.
  split. discriminate. split. vm_compute; discriminate. split. vm_compute; discriminate.
  split. vm_compute; reflexivity. split. vm_compute; reflexivity. split; assumption. Qed.

(* landscapes with different numbers of depths, p = 3, X = [a; tent (2,1) on [1,3]], Y = [b]: ||X||^3 = 5/4 <= (11/10)^3,
   ||Y||^3 = 3/4 <= 1^3; the model sum and difference evaluate and have ||X+Y||^3 = 19/32, ||X-Y||^3 = 89/16 <= (21/10)^3 *)
Example minkowski_model_hyp_satisfiable :
  let X := LandArithM.mkE 1 [[(0, 0); (1, 1); (3, 0)]; [(1, 0); (2, 1); (3, 0)]] in
  let Y := LandArithM.mkE 1 ([(0, 0); (2, -1); (3, 0)] :: nil) in
  LandArithS.wfL (LandArithM.e_cp X) /\ LandArithS.wfL (LandArithM.e_cp Y) /\ LandArithM.e_deg X = LandArithM.e_deg Y /\
  (exists nx ny, norm_pow_m 3 (LandArithM.e_cp X) = Some nx /\ norm_pow_m 3 (LandArithM.e_cp Y) = Some ny /\
     nx == 5 # 4 /\ ny == 3 # 4 /\ nx <= pw (11 # 10) 3 /\ ny <= pw 1 3) /\
  match LandArithM.e_add LandArithM.Fixed X Y, LandArithM.e_sub LandArithM.Fixed X Y with
  | LandArithM.Ok R, LandArithM.Ok D =>
      match norm_pow_m 3 (LandArithM.e_cp R), norm_pow_m 3 (LandArithM.e_cp D) with
      | Some nr, Some nd => Qeq_bool nr (19 # 32) && Qeq_bool nd (89 # 16) && Qle_bool nd (pw ((11 # 10) + 1) 3)
      | _, _ => false end
  | _, _ => false end = true.
Proof. cbv zeta. split; [|split; [|split; [|split]]].
  - repeat constructor; try discriminate; reflexivity.
  - repeat constructor; try discriminate; reflexivity.
  - reflexivity.
  - eexists. eexists. split. vm_compute. reflexivity. split. vm_compute. reflexivity.
    split. reflexivity. split. reflexivity. split; vm_compute; discriminate.
  - vm_compute. reflexivity. Qed.

(* the real norm: for L = [a] and p = 2 it is 1 *)
Example pnorm_real_instance : (0 <= 1)%R /\ (1 ^ 2)%R = Q2R (norm_pow 2 ([(0, 0); (1, 1); (3, 0)] :: nil)).
Proof. split. apply Rle_0_1.
  assert (E : norm_pow 2 ([(0, 0); (1, 1); (3, 0)] :: nil) == 1) by (vm_compute; reflexivity).
  rewrite (Qeq_eqR _ _ E). unfold Q2R. simpl. field. Qed.
