(* C10 - Landscape p-norms and the sup norm equal the integrals they name.
   Only statements here; every proof is `exact <lemma of Proofs/PNorm*.v>`.
   Spec: Spec/PNormS.v (closed-form integral of |l|^p over a segment, norm_pow = sum over depths and
   segments, sup_spec = largest |y|).  Model: Model/PNormM.v (`seg`, `norm_pow_m` = auxiliary.py:_p_norm
   after fixes/C10_pnorm_crossing.patch; `Legacy` = the pinned code).  The models return the p-th power
   of the norm; Some _ = no division by zero occurred. *)
From Coq Require Import QArith Qabs List.
From Persim Require Import Lib.PL Spec.PNormS Model.PNormM
  Proofs.PNormRefute Proofs.PNormP Proofs.PNormLaws Proofs.PNormSup.
Import ListNotations.
Open Scope Q_scope.

(* T1: one segment, ordinates on the same side of the axis (or touching it) *)
Theorem seg_closed_form_same_sign : forall p x0 y0 x1 y1, (1 <= p)%nat -> crosses y0 y1 = false ->
  exists v, seg p (x0, y0) (x1, y1) = Some v /\
            v == (x1 - x0) * gsum (Qabs y0) (Qabs y1) p / nQ (S p).
Proof. exact seg_same_sign. Qed.
Print Assumptions seg_closed_form_same_sign.

(* T1: one segment that crosses the axis *)
Theorem seg_closed_form_crossing : forall p x0 y0 x1 y1, (1 <= p)%nat -> crosses y0 y1 = true ->
  exists v, seg p (x0, y0) (x1, y1) = Some v /\
            v == (x1 - x0) * (pw (Qabs y0) (S p) + pw (Qabs y1) (S p)) / (nQ (S p) * (Qabs y0 + Qabs y1)).
Proof. exact seg_crossing. Qed.
Print Assumptions seg_closed_form_crossing.

(* T1 headline: for EVERY list of breakpoint lists (sign changes, flat and nearly flat pieces, even
   repeated abscissae) and every integer p >= 1 the model's `result` is the sum over depths and segments
   of the integral of |l|^p, and no division by zero happens on the way (finiteness) *)
Theorem pnorm_pow_correct : forall p L, (1 <= p)%nat ->
  exists v, norm_pow_m p L = Some v /\ v == norm_pow p L.
Proof. exact norm_pow_m_correct. Qed.
Print Assumptions pnorm_pow_correct.

Theorem pnorm_exact_class_correct : forall p L, (1 <= p)%nat ->
  exists v, exact_p_norm_pow p L = Some v /\ v == norm_pow p L.
Proof. exact exact_p_norm_correct. Qed.
Print Assumptions pnorm_exact_class_correct.

(* the grid class integrates the polyline through (grid_i, values_i) *)
Theorem pnorm_approx_class_correct : forall p a b n vals, (1 <= p)%nat ->
  exists v, approx_p_norm_pow p a b n vals = Some v /\ v == norm_pow p (values_to_pairs a b n vals).
Proof. exact approx_p_norm_correct. Qed.
Print Assumptions pnorm_approx_class_correct.

(* T1: the code at the pinned commit: [[(0,-1),(2,1)]], p = 2: it returns 0, the integral is 2/3 *)
Theorem pnorm_legacy_refuted :
  exists (L : landscape) (p : nat), wf L /\ (1 <= p)%nat /\
    (exists v, Legacy.norm_pow p L = Some v /\ v == 0) /\
    norm_pow p L == 2 # 3 /\ (exists v, norm_pow_m p L = Some v /\ v == 2 # 3).
Proof. exact legacy_refuted. Qed.
Print Assumptions pnorm_legacy_refuted.

(* T1: sup norm of one depth: the largest |y| over the breakpoints bounds |f(t)| at every t and is attained *)
Theorem sup_norm_is_sup : forall l, incr l ->
  (forall t, Qabs (pl_eval l t) <= sup_pts l) /\
  (l <> [] -> exists t, Qabs (pl_eval l t) == sup_pts l).
Proof. exact sup_pts_is_sup. Qed.
Print Assumptions sup_norm_is_sup.

(* ... and of a landscape: over all depths *)
Theorem sup_norm_landscape_is_sup : forall L, wf L ->
  (forall l t, In l L -> Qabs (pl_eval l t) <= sup_spec L) /\
  (concat L <> [] -> exists l t, In l L /\ Qabs (pl_eval l t) == sup_spec L).
Proof. exact sup_spec_is_sup. Qed.
Print Assumptions sup_norm_landscape_is_sup.

(* the two sup_norm methods return it (max() of nothing raises: None) *)
Theorem exact_sup_norm_is_sup : forall L, concat L <> [] -> exists v, exact_sup_norm L = Some v /\ v == sup_spec L.
Proof. exact exact_sup_norm_correct. Qed.
Print Assumptions exact_sup_norm_is_sup.

Theorem approx_sup_norm_is_max : forall vals, concat vals <> [] ->
  exists v, approx_sup_norm vals = Some v /\ v == sup_pts (map (fun v => (0, v)) (concat vals)).
Proof. exact approx_sup_norm_correct. Qed.
Print Assumptions approx_sup_norm_is_max.

(* T1 consequences.  ||c P||^p = |c|^p ||P||^p *)
Theorem pnorm_homogeneous : forall p c L, (1 <= p)%nat ->
  exists v w, norm_pow_m p (scale c L) = Some v /\ norm_pow_m p L = Some w /\ v == pw (Qabs c) p * w.
Proof. exact norm_pow_m_scale. Qed.
Print Assumptions pnorm_homogeneous.

(* the zero function, e.g. P - P, has norm 0 *)
Theorem pnorm_zero : forall p L, (1 <= p)%nat -> Forall zero_pts L -> exists v, norm_pow_m p L = Some v /\ v == 0.
Proof. exact norm_pow_m_zero. Qed.
Print Assumptions pnorm_zero.

(* the integral is non-negative, so the p-th root exists *)
Theorem pnorm_pow_nonneg : forall p L, wf L -> 0 <= norm_pow p L.
Proof. exact norm_pow_nonneg. Qed.
Print Assumptions pnorm_pow_nonneg.

(* non-vacuity *)
Example c10_hyp_satisfiable : wf [[(0, -1); (2, 1)]; [(0, 0); (1, 1); (2, 1)]] /\ crosses (-1) 1 = true /\ crosses 0 1 = false.
Proof. split. repeat constructor. split; reflexivity. Qed.

(* ------------------------------------------------------------------ T2: "equals the integral it names" *)
From Coq Require Import Reals Qreals.
From Coquelicot Require Import Coquelicot.
From Persim Require Import Proofs.PNormRInt.

(* the spec's closed form IS the Riemann integral of |l|^p over the segment, l the straight line
   through (x0,y0) and (x1,y1); with pnorm_pow_correct: the model's `result` is the sum over depths and
   segments of these integrals *)
Theorem seg_closed_form_is_RInt : forall p x0 y0 x1 y1, (x0 < x1)%Q ->
  is_RInt (fun t => (Rabs (lin (Q2R x0) (Q2R y0) (Q2R x1) (Q2R y1) t) ^ p)%R) (Q2R x0) (Q2R x1)
          (Q2R (seg_int p (x0, y0) (x1, y1))) /\
  RInt (fun t => (Rabs (lin (Q2R x0) (Q2R y0) (Q2R x1) (Q2R y1) t) ^ p)%R) (Q2R x0) (Q2R x1)
  = Q2R (seg_int p (x0, y0) (x1, y1)).
Proof. intros p x0 y0 x1 y1 D. split. exact (seg_int_is_RInt p x0 y0 x1 y1 D). exact (seg_int_eq_RInt p x0 y0 x1 y1 D). Qed.
Print Assumptions seg_closed_form_is_RInt.

(* `lin` is the interpolant pl_eval of Lib/PL.v on the segment *)
Theorem interpolant_is_line : forall x0 y0 x1 y1 t, (x0 < x1)%Q -> (x0 <= t <= x1)%Q ->
  Q2R (pl_eval ((x0, y0) :: (x1, y1) :: nil) t) = lin (Q2R x0) (Q2R y0) (Q2R x1) (Q2R y1) (Q2R t).
Proof. exact pl_eval_is_lin. Qed.
Print Assumptions interpolant_is_line.
