(* C08 - Grid landscapes stay within half a step of the true landscape.
   Only statements here; every proof is `exact <lemma of Proofs/ApproxP.v>`.
   Model: Model/ApproxM.v (approximate.py, auxiliary.ndsnap_regular, tools.vectorize / death_vector,
   transformer.py).  Spec notions: Lib/PL.v (tent, land = k-th largest tent, pl_eval). *)
From Coq Require Import QArith Qabs Qminmax Lqa List Bool Arith ZArith Lia Permutation Sorting.Sorted.
From Persim Require Import Lib.Kth Lib.PL Model.ApproxM Proofs.ApproxP.
Import ListNotations.
Open Scope Q_scope.

(* what the two ramp loops append at node i for a bar whose ends were snapped to nodes ib, id:
   nothing when the tent over (g_ib, g_id) vanishes at g_i, otherwise exactly that tent value
   (this is where the integer rounding of mid_pt matters) *)
Theorem ramps_are_snapped_tent : forall s e n (ib id i : nat), (2 <= n)%nat -> s < e ->
  let T := tent (node s e n ib, node s e n id) (node s e n i) in
  let w := W (bar_events (step s e n) (Z.of_nat ib) (Z.of_nat id)) i in
  (w = [] /\ T == 0) \/ (exists v, w = [v] /\ v == T /\ 0 < T).
Proof. exact ramps_are_snapped_tent_P. Qed.
Print Assumptions ramps_are_snapped_tent.

(* model fidelity: the ramp loops only ever touch nodes strictly between the snapped ends (no IndexError,
   no negative-index wrap-around), and the value->index dictionary returns the argmin index (no KeyError) *)
Theorem ramp_indices_in_range : forall stp (ib id : Z) z v, In (z, v) (bar_events stp ib id) -> (ib < z < id)%Z.
Proof. exact ramp_indices_in_range_P. Qed.
Print Assumptions ramp_indices_in_range.

Theorem dict_lookup_is_argmin : forall s e n x, (2 <= n)%nat -> s < e -> ind (grid s e n) x = snap_idx (grid s e n) x.
Proof. exact ind_is_snap. Qed.
Print Assumptions dict_lookup_is_argmin.

(* snapping moves a point of [start, stop] by at most half a step *)
Theorem snap_half_step : forall s e n x, (2 <= n)%nat -> s < e -> s <= x <= e ->
  Qabs (node s e n (snap_idx (grid s e n) x) - x) <= step s e n * (1#2).
Proof. exact snap_half_step_P. Qed.
Print Assumptions snap_half_step.

(* the snapped index is a nearest node, and the first such *)
Theorem snap_first_minimum : forall s e n x, (1 <= n)%nat ->
  let a := snap_idx (grid s e n) x in
  (a < n)%nat /\ (forall j, (j < n)%nat -> Qabs (node s e n a - x) <= Qabs (node s e n j - x))
  /\ (forall j, (j < a)%nat -> Qabs (node s e n a - x) < Qabs (node s e n j - x)).
Proof. exact snap_first_minimum_P. Qed.
Print Assumptions snap_first_minimum.

Theorem tent_lipschitz : forall b d b' d' t eps,
  Qabs (b - b') <= eps -> Qabs (d - d') <= eps -> Qabs (tent (b, d) t - tent (b', d') t) <= eps.
Proof. exact tent_lipschitz_P. Qed.
Print Assumptions tent_lipschitz.

(* index-aligned non-negative lists that are pointwise eps-close have eps-close k-th largest values *)
Theorem kth_lipschitz : forall l1 l2 eps k, (1 <= k)%nat -> 0 <= eps ->
  (forall x, In x l1 -> 0 <= x) -> (forall x, In x l2 -> 0 <= x) ->
  Forall2 (fun x y => Qabs (x - y) <= eps) l1 l2 -> Qabs (kth l1 k - kth l2 k) <= eps.
Proof. exact kth_lipschitz_P. Qed.
Print Assumptions kth_lipschitz.

Theorem kth_zero_padding : forall l m k, (1 <= k)%nat -> (forall x, In x l -> 0 <= x) ->
  kth (l ++ repeat 0 m) k == kth l k.
Proof. exact kth_zero_padding_P. Qed.
Print Assumptions kth_zero_padding.

(* THE BOUND: every sampled value (rows that are not returned counting as zero: val_at) is within half
   a step of the (k+1)-st largest tent at that node, for every depth k and node i *)
Theorem approx_within_half_step : forall s e n bars k i, (2 <= n)%nat -> s < e ->
  (forall bd, In bd bars -> s <= fst bd <= e /\ s <= snd bd <= e) -> (i < n)%nat ->
  Qabs (val_at (approx_values s e n bars) k i - land bars (S k) (node s e n i)) <= step s e n * (1#2).
Proof. exact approx_within_half_step_P. Qed.
Print Assumptions approx_within_half_step.

(* exact when every end point is a node *)
Theorem approx_exact_on_grid : forall s e n bars k i, (2 <= n)%nat -> s < e ->
  (forall bd, In bd bars -> on_grid s e n (fst bd) /\ on_grid s e n (snd bd)) -> (i < n)%nat ->
  val_at (approx_values s e n bars) k i == land bars (S k) (node s e n i).
Proof. exact approx_exact_on_grid_P. Qed.
Print Assumptions approx_exact_on_grid.

(* the result is a numeric matrix with at least one row and n columns *)
Theorem approx_rows_rectangular : forall s e n bars,
  (1 <= length (approx_values s e n bars))%nat /\ forall r, In r (approx_values s e n bars) -> length r = n.
Proof. exact approx_rows_rectangular_P. Qed.
Print Assumptions approx_rows_rectangular.

(* T2: the sampled depths are nested and non-negative, like the landscape itself *)
Theorem approx_depths_nested : forall s e n bars k i, (2 <= n)%nat -> s < e -> (i < n)%nat ->
  val_at (approx_values s e n bars) (S k) i <= val_at (approx_values s e n bars) k i
  /\ 0 <= val_at (approx_values s e n bars) k i.
Proof. exact approx_depths_nested_P. Qed.
Print Assumptions approx_depths_nested.

(* the pinned tree (Legacy model: L.size == 0 -> array(['empty'])) does NOT meet the bound:
   witness start=0, stop=1, num_steps=3, bars [(0, 1/10)] *)
Theorem approx_legacy_refuted : exists s e n bars, (2 <= n)%nat /\ s < e /\
  (forall bd, In bd bars -> s <= fst bd <= e /\ s <= snd bd <= e) /\ ~ legacy_meets_bound s e n bars.
Proof. exact approx_legacy_refuted_P. Qed.
Print Assumptions approx_legacy_refuted.

(* ... and it is the only difference: whenever the legacy code returns numbers they are the intended ones *)
Theorem approx_legacy_numeric : forall s e n bars v,
  approx_values_legacy s e n bars = LVals v -> v = approx_values s e n bars.
Proof. exact approx_legacy_numeric_P. Qed.
Print Assumptions approx_legacy_numeric.

(* __init__: bars with an infinite coordinate are dropped, all others kept *)
Theorem infinite_bars_removed : forall d x y, In (x, y) (finite_bars d) <-> In (Fin x, Fin y) d.
Proof. exact finite_bars_in. Qed.
Print Assumptions infinite_bars_removed.

(* the default grid ends (smallest birth, largest death) always cover the diagram *)
Theorem default_ends_cover : forall bars s e, grid_ends None None bars = Some (s, e) ->
  (forall bd, In bd bars -> fst bd <= snd bd) ->
  forall bd, In bd bars -> s <= fst bd <= e /\ s <= snd bd <= e.
Proof. exact default_ends_cover_P. Qed.
Print Assumptions default_ends_cover.

(* the constructor end to end: degree selection, removal of infinite bars, grid defaults, compute *)
Theorem approx_ctor_within_half_step : forall start stop n dgms h s e v k i,
  approx_ctor start stop n dgms h = Ok (s, e, v) -> (2 <= n)%nat -> s < e ->
  (forall x y, In (Fin x, Fin y) (nth h dgms []) -> s <= x <= e /\ s <= y <= e) -> (i < n)%nat ->
  Qabs (val_at v k i - land (finite_bars (nth h dgms [])) (S k) (node s e n i)) <= step s e n * (1#2).
Proof. exact approx_ctor_within_half_step_P. Qed.
Print Assumptions approx_ctor_within_half_step.

(* vectorize: np.interp of a depth's breakpoints at the nodes IS the piecewise-linear function of those
   breakpoints, for breakpoint lists with increasing abscissae whose first and last ordinate are 0 *)
Theorem vectorize_exact : forall cps s e n k i, (i < n)%nat -> (k < length cps)%nat ->
  wellformed_depth (nth k cps []) ->
  val_at (vectorize_values cps s e n) k i == pl_eval (nth k cps []) (node s e n i).
Proof. exact vectorize_exact_P. Qed.
Print Assumptions vectorize_exact.

(* the transformer returns the approximate class's values on the fitted grid (flattened on request) *)
Theorem landscaper_is_approx : forall flatten start stop n dgms h v,
  landscaper flatten start stop n dgms h = Ok v ->
  exists s e v0, approx_ctor (Some s) (Some e) n dgms h = Ok (s, e, v0)
                 /\ (start = Some s \/ start = None) /\ (stop = Some e \/ stop = None)
                 /\ v = if flatten then [concat v0] else v0.
Proof. exact landscaper_is_approx_P. Qed.
Print Assumptions landscaper_is_approx.

(* death_vector: sorted from largest to smallest (+inf first), a rearrangement of the deaths *)
Theorem death_vector_sorted : forall d,
  StronglySorted ext_ge (death_vector d) /\ Permutation (map snd d) (death_vector d).
Proof. exact death_vector_sorted_P. Qed.
Print Assumptions death_vector_sorted.

(* ---- non-vacuity ---- *)
Example half_step_hyp_satisfiable :
  (2 <= 5)%nat /\ 0 < 4 /\ (forall bd, In bd [(1#2, 7#2); (1, 3)] -> 0 <= fst bd <= 4 /\ 0 <= snd bd <= 4).
Proof. split. lia. split. lra. intros bd [<-|[<-|[]]]; simpl; lra. Qed.
(* the bound is attained: bar (1/2, 7/2) on the grid 0,1,2,3,4 is snapped to (0, 3); at node 1 the value is 1, the tent 1/2 *)
Example half_step_attained :
  Qabs (val_at (approx_values 0 4 5 [(1#2, 7#2)]) 0 1 - land [(1#2, 7#2)] 1 (node 0 4 5 1)) == step 0 4 5 * (1#2).
Proof. vm_compute. reflexivity. Qed.
Example on_grid_hyp_satisfiable : forall bd, In bd [(0, 3); (1, 4)] -> on_grid 0 4 5 (fst bd) /\ on_grid 0 4 5 (snd bd).
Proof. intros bd [<-|[<-|[]]]; simpl; split.
  exists 0%nat; split; [lia|reflexivity]. exists 3%nat; split; [lia|reflexivity].
  exists 1%nat; split; [lia|reflexivity]. exists 4%nat; split; [lia|reflexivity]. Qed.
Example wellformed_depth_satisfiable : wellformed_depth [(1#2, 0); (3#2, 1); (7#4, 3#4); (2, 1); (3, 0)].
Proof. unfold wellformed_depth, last_ord. simpl. repeat split; reflexivity. Qed.
Example ctor_hyp_satisfiable : exists v,
  approx_ctor None None 5 [[(Fin 0, Fin 1)]; [(Fin 0, Fin 4); (Fin 1, PInf); (Fin 1, Fin 3)]] 1 = Ok (0, 4, v).
Proof. eexists. vm_compute. reflexivity. Qed.
Example landscaper_hyp_satisfiable : exists v, landscaper true None None 3 [[(Fin 0, Fin 2); (Fin 1, PInf)]] 0 = ErrInfiniteGrid
  /\ landscaper true None (Some 2) 3 [[(Fin 0, Fin 2); (Fin 1, PInf)]] 0 = Ok v.
Proof. eexists. split; vm_compute; reflexivity. Qed.

(* ================= glue with C03 (exact sweep) and C01 (bottleneck): coq/Proofs/LandscapeGlue*.v, LandscapeStabP.v ================= *)
From Persim Require Spec.LandscapeS Model.SweepM Spec.BottleneckS Proofs.LandscapeGlueP Proofs.LandscapeGlueArithP Proofs.LandscapeStabP.

(* vectorize on the exact landscape of a diagram: for EVERY finite diagram of positive-length bars, every grid
   (s, e, n), every depth k (returned or not: val_at reads 0 for a row that is not there) and every node i, np.interp
   of the critical pairs the sweep (Model/SweepM.v, shortcut off) computes returns exactly the (k+1)-st largest tent
   at the node: vectorize_exact composed with C03.sweep_correct and the well-formedness of the sweep's output *)
Theorem vectorize_exact_on_diagrams : forall (bars : list bar) s e n, (forall a, In a bars -> fst a < snd a) ->
  exists L, SweepM.sweep false bars = Some L /\ Forall wellformed_depth L /\
    forall k i, (i < n)%nat -> val_at (vectorize_values L s e n) k i == land bars (S k) (node s e n i).
Proof. exact LandscapeGlueArithP.vectorize_exact_on_diagrams_P. Qed.
Print Assumptions vectorize_exact_on_diagrams.

(* ... and through the public entry point PersLandscapeExact(dgms, hom_deg) (one trailing infinite bar dropped) *)
Theorem vectorize_exact_on_exact_landscape : forall dgms h dg (bars : list bar) s e n, nth_error dgms h = Some dg ->
  SweepM.finite_bars (SweepM.strip_trailing_inf dg) = Some bars -> (forall a, In a bars -> fst a < snd a) ->
  exists L, SweepM.exact_landscape false true dgms h = SweepM.Ok L /\
    forall k i, (i < n)%nat -> val_at (vectorize_values L s e n) k i == land bars (S k) (node s e n i).
Proof. exact LandscapeGlueArithP.vectorize_exact_on_exact_landscape_P. Qed.
Print Assumptions vectorize_exact_on_exact_landscape.

(* T2 stability of the grid landscape: the sampled values of two diagrams inside [s, e] differ, at every depth and
   node, by at most their bottleneck distance (Spec/BottleneckS.v) plus one grid step: approx_within_half_step twice
   and C10.landscape_stability *)
Theorem approx_landscape_stability : forall s e n (D D' : list bar) v k i, (2 <= n)%nat -> s < e ->
  (forall bd, In bd D -> s <= fst bd <= e /\ s <= snd bd <= e) ->
  (forall bd, In bd D' -> s <= fst bd <= e /\ s <= snd bd <= e) -> (i < n)%nat ->
  BottleneckS.is_bottleneck D D' v ->
  Qabs (val_at (approx_values s e n D) k i - val_at (approx_values s e n D') k i) <= v + step s e n.
Proof. exact LandscapeStabP.approx_landscape_stability_P. Qed.
Print Assumptions approx_landscape_stability.

(* non-vacuity: a diagram with interacting bars, sampled on 0,1,..,8: depth 1 at node 3 is 2, depth 2 at node 3 is 1 *)
Example vectorize_on_diagram_instance :
  (forall a, In a [(1, 5); (2, 8); (3, 4)] -> fst a < snd a) /\
  match SweepM.sweep false [(1, 5); (2, 8); (3, 4)] with
  | Some L => Qeq_bool (val_at (vectorize_values L 0 8 9) 0 3) 2 && Qeq_bool (val_at (vectorize_values L 0 8 9) 1 3) 1
              && Qeq_bool (land [(1, 5); (2, 8); (3, 4)] 2 (node 0 8 9 3)) 1
  | None => false end = true.
Proof. split. intros a H; simpl in H; repeat (destruct H as [H|H]; [subst a; reflexivity|]); contradiction.
  vm_compute. reflexivity. Qed.
(* the hypotheses of approx_landscape_stability are satisfiable (is_bottleneck [(0,2)] [] 1 is C01.spec_instance) *)
Example approx_stability_hyp_satisfiable :
  BottleneckS.is_bottleneck [(0, 2)] [] 1 /\ (forall bd, In bd [(0, 2)] -> 0 <= fst bd <= 4 /\ 0 <= snd bd <= 4) /\
  Qabs (val_at (approx_values 0 4 5 [(0, 2)]) 0 1 - val_at (approx_values 0 4 5 []) 0 1) == 1.
Proof. split; [|split].
  - split.
    + exists []. split; [|reflexivity]. split; [constructor|]. split; [constructor|]. intros p [].
    + intros m (_ & _ & B). destruct m as [|p m]; [discriminate|].
      destruct (B p (or_introl eq_refl)) as [_ H]. inversion H.
  - intros bd [<-|[]]; simpl; lra.
  - vm_compute. reflexivity. Qed.

(* ... and through the constructor PersLandscapeApprox(start, stop, num_steps, dgms, hom_deg): two diagrams sampled on the
   same grid (s, e, n) differ at every depth and node by at most the bottleneck distance of their finite bars plus one step *)
Theorem approx_ctor_landscape_stability : forall start stop start' stop' n dgms h dgms' h' s e V V' v k i,
  approx_ctor start stop n dgms h = Ok (s, e, V) -> approx_ctor start' stop' n dgms' h' = Ok (s, e, V') ->
  (2 <= n)%nat -> s < e ->
  (forall x y, In (Fin x, Fin y) (nth h dgms []) -> s <= x <= e /\ s <= y <= e) ->
  (forall x y, In (Fin x, Fin y) (nth h' dgms' []) -> s <= x <= e /\ s <= y <= e) -> (i < n)%nat ->
  BottleneckS.is_bottleneck (finite_bars (nth h dgms [])) (finite_bars (nth h' dgms' [])) v ->
  Qabs (val_at V k i - val_at V' k i) <= v + step s e n.
Proof. exact LandscapeStabP.approx_ctor_landscape_stability_P. Qed.
Print Assumptions approx_ctor_landscape_stability.
(* non-vacuity: the hypotheses are those of approx_ctor_within_half_step (ctor_hyp_satisfiable) and of
   approx_landscape_stability (approx_stability_hyp_satisfiable); the two constructor calls below share the grid (0, 4, 5) *)
Example ctor_stability_hyp_satisfiable : exists V V',
  approx_ctor None None 5 [[(Fin 0, Fin 4); (Fin 1, Fin 3)]] 0 = Ok (0, 4, V) /\
  approx_ctor (Some 0) (Some 4) 5 [[(Fin 0, Fin 3)]] 0 = Ok (0, 4, V').
Proof. eexists. eexists. split; vm_compute; reflexivity. Qed.
