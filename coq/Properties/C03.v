(* C03 - the exact persistence landscape equals the k-th-largest-tent definition.
   Only statements here; every proof is `exact <lemma of Proofs/Sweep*.v>`.
   Model: Model/SweepM.v, a line-by-line model over Q of PersLandscapeExact.compute_landscape.
     sweep true  = the pinned code, with the repeated-bar shortcut (exact.py 285-304)   [Legacy]
     sweep false = the same sweep without the shortcut                                   [intended]
     exact_landscape shortcut guard_empty dgms hom_deg = the glue (dgms[hom_deg], one trailing
       infinite bar dropped) around it.
   Spec: Lib/PL.v (tent, land = k-th largest tent, pl_eval = linear interpolation, 0 outside),
         Spec/LandscapeS.v (landscape_ok, positive_bars, the bar order ssorted). *)
From Coq Require Import Reals QArith Qreals Qminmax List Bool Arith Permutation.
From Persim Require Import Lib.Kth Lib.PL Spec.LandscapeS Spec.LandscapeRealS Model.SweepM Proofs.SweepGlue Proofs.SweepP Proofs.PLSpec
  Proofs.KthReal Proofs.SweepReal Corr.SweepCorr Proofs.SweepCorrP.
Import ListNotations.
Open Scope Q_scope.

(* ================= the reading of critical_pairs ================= *)
(* pl_eval is linear interpolation of the breakpoints and 0 outside them, for every breakpoint list with
   strictly increasing abscissae (which sweep_correct proves every depth has) *)
Theorem pl_eval_is_linear_interpolation : forall pre x0 y0 x1 y1 post t,
  incr (pre ++ (x0, y0) :: (x1, y1) :: post) -> x0 <= t -> t <= x1 ->
  pl_eval (pre ++ (x0, y0) :: (x1, y1) :: post) t == y0 + (y1 - y0) * (t - x0) / (x1 - x0).
Proof. exact pl_eval_interp. Qed.
Print Assumptions pl_eval_is_linear_interpolation.

Theorem pl_eval_zero_outside : forall l t, incr l ->
  ((forall p, In p l -> t < fst p) \/ (forall p, In p l -> fst p < t)) -> pl_eval l t == 0.
Proof. exact pl_eval_outside. Qed.
Print Assumptions pl_eval_zero_outside.

(* ================= the intended variant is correct, for every diagram ================= *)

(* T1.  With the shortcut off the sweep terminates (Some) on every finite list of positive-length bars,
   in any input order, and its depth k, interpolated linearly and 0 outside its breakpoints, equals the
   k-th largest tent at EVERY rational t and EVERY k >= 1 (k beyond the last depth reads the default []
   and is 0); the abscissae of every depth are strictly increasing; there are at most as many depths
   as bars. *)
Theorem sweep_correct : forall bars : list bar, (forall a, In a bars -> fst a < snd a) ->
  exists L, sweep false bars = Some L /\
    (forall (k : nat) (t : Q), (1 <= k)%nat -> pl_eval (nth (k - 1) L []) t == land bars k t) /\
    (forall l, In l L -> incr l) /\
    (length L <= length bars)%nat.
Proof. exact sweep_correct_full. Qed.
Print Assumptions sweep_correct.

(* every depth beyond the last one returned is identically zero *)
Theorem sweep_depths_beyond_zero : forall bars L, (forall a, In a bars -> fst a < snd a) ->
  sweep false bars = Some L -> forall (k : nat) (t : Q), (length L < k)%nat -> land bars k t == 0.
Proof. exact land_beyond. Qed.
Print Assumptions sweep_depths_beyond_zero.

(* T1 at EVERY REAL t.  The same critical pairs, read as a piecewise-linear function of a real abscissa
   (pl_evalR, Spec/LandscapeRealS.v), satisfy Bubenik's rank-function definition of the landscape:
   for every k >= 1, every real t and every real v >= 0,
        v < lambda_k(t)   <->   at least k bars have tent value > v at t,
   and lambda_k(t) >= 0.  These two facts determine the value (landscape_value_is_determined), and on
   rational t the real reading is the rational one (real_reading_extends_rational), where by kth_ex the
   characterisation is "k-th largest tent". *)
Theorem sweep_correct_every_real_t : forall bars : list bar, (forall a, In a bars -> fst a < snd a) ->
  exists L, sweep false bars = Some L /\
    forall (k : nat) (t : R), (1 <= k)%nat ->
      (0 <= pl_evalR (map rp (nth (k - 1) L [])) t)%R /\
      forall v : R, (0 <= v)%R ->
        ((v < pl_evalR (map rp (nth (k - 1) L [])) t)%R <->
         (k <= exR (map (fun a => tentR (Q2R (fst a)) (Q2R (snd a)) t) bars) v)%nat).
Proof. exact sweep_correct_at_reals. Qed.
Print Assumptions sweep_correct_every_real_t.

(* ... and therefore, verbatim as in the property: at every real t and every depth k >= 1 the interpolated
   critical pairs equal the k-th largest value of max(0, min(t-b, d-t)) over the bars, counted with
   multiplicity (kthR = nth (k-1) of the descending sort, 0 beyond the number of bars). *)
Theorem sweep_is_kth_largest_tent_at_every_real_t : forall bars : list bar, (forall a, In a bars -> fst a < snd a) ->
  exists L, sweep false bars = Some L /\
    forall (k : nat) (t : R), (1 <= k)%nat ->
      pl_evalR (map rp (nth (k - 1) L [])) t
      = kthR (map (fun a => Rmax 0 (Rmin (t - Q2R (fst a)) (Q2R (snd a) - t))) bars) k.
Proof. exact sweep_kth_at_reals. Qed.
Print Assumptions sweep_is_kth_largest_tent_at_every_real_t.

Theorem landscape_value_is_determined : forall bars L L' k (t : R),
  is_landscape_value_at bars L k t -> is_landscape_value_at bars L' k t ->
  pl_evalR (map rp (nth (k - 1) L [])) t = pl_evalR (map rp (nth (k - 1) L' [])) t.
Proof. exact landscape_value_unique. Qed.
Print Assumptions landscape_value_is_determined.

Theorem real_reading_extends_rational : forall (l : list pt) (t : Q),
  pl_evalR (map rp l) (Q2R t) = Q2R (pl_eval l t).
Proof. exact plR_rational. Qed.
Print Assumptions real_reading_extends_rational.

(* T1.  One pass of the outer loop (shortcut off) on a sorted list (b,d)::A0 of positive-length bars:
   it terminates with a depth L1 and a residual list A' such that A' is sorted, positive and strictly
   shorter; L1 has strictly increasing abscissae; L1 dominates every tent of the input and of A'; and the
   rank function is preserved at every t:  #{tents of the input > v} = #{L1(t), tents of A' > v}. *)
Theorem pass_spec : forall b d A0, ssorted ((b, d) :: A0) -> positive_bars ((b, d) :: A0) ->
  exists L1 A',
    inner (S (length A0)) [(b, 0); (half (b + d), half (d - b))] b d A0 = Some (L1, A') /\
    ssorted A' /\ positive_bars A' /\ (length A' < length ((b, d) :: A0))%nat /\
    incr L1 /\
    (forall t, 0 <= pl_eval L1 t) /\
    (forall t x, In x ((b, d) :: A0) \/ In x A' -> tent x t <= pl_eval L1 t) /\
    (forall t v, 0 <= v -> ex (map (fun a => tent a t) ((b, d) :: A0)) v
                           = ex (pl_eval L1 t :: map (fun a => tent a t) A') v).
Proof. exact pass_sem. Qed.
Print Assumptions pass_spec.

(* the public entry point: hom_deg selects, one trailing infinite bar is dropped, then sweep_correct *)
Theorem exact_landscape_correct : forall dgms h dg bars, nth_error dgms h = Some dg ->
  finite_bars (strip_trailing_inf dg) = Some bars -> positive_bars bars ->
  exists L, exact_landscape false true dgms h = Ok L /\ landscape_ok bars L /\ (length L <= length bars)%nat.
Proof. exact exact_landscape_sem. Qed.
Print Assumptions exact_landscape_correct.

Theorem exact_landscape_correct_every_real_t : forall dgms h dg bars, nth_error dgms h = Some dg ->
  finite_bars (strip_trailing_inf dg) = Some bars -> positive_bars bars ->
  exists L, exact_landscape false true dgms h = Ok L /\
    forall (k : nat) (t : R), (1 <= k)%nat ->
      pl_evalR (map rp (nth (k - 1) L [])) t
      = kthR (map (fun a => Rmax 0 (Rmin (t - Q2R (fst a)) (Q2R (snd a) - t))) bars) k.
Proof. exact exact_landscape_kth_at_reals. Qed.
Print Assumptions exact_landscape_correct_every_real_t.

(* the result does not depend on the order of the input bars (as functions of t) *)
Theorem sweep_order_independent : forall bars bars' L L', positive_bars bars -> Permutation bars bars' ->
  sweep false bars = Some L -> sweep false bars' = Some L' ->
  forall (k : nat) (t : Q), (1 <= k)%nat -> pl_eval (nth (k - 1) L []) t == pl_eval (nth (k - 1) L' []) t.
Proof. exact sweep_order_free. Qed.
Print Assumptions sweep_order_independent.

(* T1.  The pinned code equals the shortcut-free sweep on every input on which the shortcut never fires
   (shortcut_fires is computable and is what the guarded source hook reports), hence is correct there. *)
Theorem sweep_shortcut_agrees : forall bars, shortcut_fires bars = false -> sweep true bars = sweep false bars.
Proof. exact sweep_nofire. Qed.
Print Assumptions sweep_shortcut_agrees.

Theorem sweep_legacy_correct_when_shortcut_silent : forall bars, positive_bars bars -> shortcut_fires bars = false ->
  exists L, sweep true bars = Some L /\ landscape_ok bars L.
Proof. exact legacy_ok_when_silent. Qed.
Print Assumptions sweep_legacy_correct_when_shortcut_silent.

Theorem sweep_legacy_correct_when_shortcut_silent_every_real_t : forall bars, positive_bars bars ->
  shortcut_fires bars = false ->
  exists L, sweep true bars = Some L /\
    forall (k : nat) (t : R), (1 <= k)%nat ->
      pl_evalR (map rp (nth (k - 1) L [])) t
      = kthR (map (fun a => Rmax 0 (Rmin (t - Q2R (fst a)) (Q2R (snd a) - t))) bars) k.
Proof. exact legacy_kth_at_reals_when_silent. Qed.
Print Assumptions sweep_legacy_correct_when_shortcut_silent_every_real_t.

(* the Legacy sweep terminates too, so the fuel-exhaustion outcome ErrFuel is never returned by any variant *)
Theorem sweep_legacy_total : forall bars, positive_bars bars -> exists L, sweep true bars = Some L.
Proof. exact sweep_legacy_runs. Qed.
Print Assumptions sweep_legacy_total.

Theorem exact_landscape_never_out_of_fuel : forall s g dgms h dg bars, nth_error dgms h = Some dg ->
  finite_bars (strip_trailing_inf dg) = Some bars -> positive_bars bars -> exact_landscape s g dgms h <> ErrFuel.
Proof. exact no_fuel_error. Qed.
Print Assumptions exact_landscape_never_out_of_fuel.

(* the trace recorded by the guarded source hook (one entry per pass with duplicate > 0) is empty exactly
   when shortcut_fires = false: the hook observes the hypothesis of sweep_shortcut_agrees *)
Theorem hook_trace_empty_iff_shortcut_silent : forall bars, positive_bars bars ->
  (shortcut_fires bars = false <-> shortcut_trace bars = []).
Proof. exact fires_iff_trace. Qed.
Print Assumptions hook_trace_empty_iff_shortcut_silent.

(* ================= the tie is a certificate ================= *)
(* Whenever the fixed runner of the generated case files (Corr/SweepCorr.v: check_case) answers VAgree for an
   implementation output L, that output satisfies the definition at every t and k: an agreeing case is a proof
   about the implementation's actual critical_pairs on that input, not only a comparison. *)
Theorem agree_verdict_certifies_output : forall dgms h dg bars L tr, nth_error dgms h = Some dg ->
  finite_bars (strip_trailing_inf dg) = Some bars -> positive_bars bars ->
  check_case dgms h (Ok L) tr = VAgree ->
  forall (k : nat) (t : Q), (1 <= k)%nat -> pl_eval (nth (k - 1) L []) t == land bars k t.
Proof. exact agree_certifies. Qed.
Print Assumptions agree_verdict_certifies_output.

(* ================= the faithful model of the pinned code is refuted ================= *)

(* witness [(1,5);(1,5);(3,6)], k = 2, t = 11/2: definition 0, code 1/2 *)
Theorem sweep_legacy_refuted :
  exists bars L, (forall a, In a bars -> fst a < snd a) /\ sweep true bars = Some L /\
    exists (k : nat) (t : Q), (1 <= k)%nat /\ ~ (pl_eval (nth (k - 1) L []) t == land bars k t).
Proof. exact legacy_refuted_repeated. Qed.
Print Assumptions sweep_legacy_refuted.

(* witness [(6,11);(5,7);(7,10);(6,7)]: no two input bars are equal; the sweep itself creates the
   residual bar (6,7), which collides with the input bar (6,7); k = 3, t = 8 *)
Theorem sweep_legacy_refuted_no_input_repeats :
  exists bars L, (forall a, In a bars -> fst a < snd a) /\ no_repeats bars = true /\ sweep true bars = Some L /\
    exists (k : nat) (t : Q), (1 <= k)%nat /\ ~ (pl_eval (nth (k - 1) L []) t == land bars k t).
Proof. exact legacy_refuted_created. Qed.
Print Assumptions sweep_legacy_refuted_no_input_repeats.

(* the pinned code raises IndexError on a diagram without rows (exact.py:263 A[-1]) *)
Theorem empty_diagram_legacy_refuted :
  exists dgms h, nth_error dgms h = Some [] /\ exact_landscape true false dgms h = ErrIndex.
Proof. exact legacy_empty_refuted. Qed.
Print Assumptions empty_diagram_legacy_refuted.

(* ================= glue ================= *)
Theorem hom_deg_selects : forall s g dgms h dg, nth_error dgms h = Some dg ->
  exact_landscape s g dgms h = exact_landscape s g [dg] 0.
Proof. exact glue_select. Qed.
Print Assumptions hom_deg_selects.

Theorem hom_deg_out_of_range : forall s g dgms h, (length dgms <= h)%nat -> exact_landscape s g dgms h = ErrIndex.
Proof. exact glue_out_of_range. Qed.
Print Assumptions hom_deg_out_of_range.

Theorem trailing_inf_removed : forall s g dg bars b, finite_bars dg = Some bars ->
  exact_landscape s g [dg ++ [(b, None)]] 0 = run_sweep s bars /\
  (dg <> [] -> exact_landscape s g [dg] 0 = run_sweep s bars).
Proof. exact glue_trailing_both. Qed.
Print Assumptions trailing_inf_removed.

Theorem empty_diagram_no_depths : forall s dgms h, nth_error dgms h = Some [] -> exact_landscape s true dgms h = Ok [].
Proof. exact glue_empty. Qed.
Print Assumptions empty_diagram_no_depths.

(* ================= non-vacuity ================= *)
(* the hypotheses of sweep_correct / pass_spec are satisfiable, with interacting bars *)
Example sweep_correct_nonvacuous :
  (forall a, In a [(1, 5); (2, 8); (3, 4); (5, 9); (6, 7)] -> fst a < snd a) /\
  option_map (@length _) (sweep false [(1, 5); (2, 8); (3, 4); (5, 9); (6, 7)]) = Some 3%nat.
Proof. split. intros a H; simpl in H; repeat (destruct H as [H|H]; [subst a; reflexivity|]); contradiction.
  vm_compute. reflexivity. Qed.
Example pass_spec_nonvacuous : ssorted [(1, 5); (2, 8); (3, 4)] /\ positive_bars [(1, 5); (2, 8); (3, 4)].
Proof. split.
  - exact ssorted_example.
  - intros a H; simpl in H; repeat (destruct H as [H|H]; [subst a; reflexivity|]); contradiction. Qed.
(* the shortcut-silent predicate is satisfiable and not trivially true *)
Example shortcut_silent_nonvacuous :
  shortcut_fires [(1, 5); (2, 8); (3, 4); (5, 9); (6, 7)] = false /\ shortcut_fires [(6, 11); (5, 7); (7, 10); (6, 7)] = true.
Proof. split; vm_compute; reflexivity. Qed.
(* on the refutation witness the shortcut-free sweep gives the definition's value 0 at k = 2, t = 11/2 *)
Example intended_on_witness :
  match sweep false [(1, 5); (1, 5); (3, 6)] with Some L => Qeq_bool (pl_eval (nth 1 L []) (11 # 2)) 0 | None => false end = true.
Proof. vm_compute. reflexivity. Qed.
Example agree_verdict_nonvacuous :
  check_case [[(0, Some 3); (1, Some 4)]] 0
    (Ok [[(0, 0); (3 # 2, 3 # 2); (2, 1); (5 # 2, 3 # 2); (4, 0)]; [(1, 0); (2, 1); (3, 0)]]) (Some []) = VAgree.
Proof. vm_compute. reflexivity. Qed.
Example glue_nonvacuous :
  exact_landscape false true [[(0, Some 2)]; [(1, Some 3); (0, None)]] 1 = Ok [[(1, 0); (4 # 2, 2 # 2); (3, 0)]].
Proof. vm_compute. reflexivity. Qed.
