(* C03 - the exact persistence landscape equals the k-th-largest-tent definition.
   Only statements here; every proof is `exact <lemma of Proofs/Sweep*.v>`.
   Model: Model/SweepM.v.  sweep true = pinned code (repeated-bar shortcut), sweep false = shortcut-free. *)
From Coq Require Import QArith Qminmax List Bool Arith.
From Persim Require Import Lib.Kth Lib.PL Model.SweepM Proofs.SweepGlue.
Import ListNotations.
Open Scope Q_scope.

(* ---- the faithful model of the pinned code is refuted ---- *)

(* witness [(1,5);(1,5);(3,6)], k = 2, t = 11/2: definition 0, code 1/2 *)
Theorem sweep_legacy_refuted :
  exists bars L, (forall a, In a bars -> fst a < snd a) /\ sweep true bars = Some L /\
    exists (k : nat) (t : Q), (1 <= k)%nat /\ ~ (pl_eval (nth (k - 1) L []) t == land bars k t).
Proof. exact legacy_refuted_repeated. Qed.
Print Assumptions sweep_legacy_refuted.

(* witness [(6,11);(5,7);(7,10);(6,7)]: no two input bars are equal; the sweep itself creates the
   residual bar (6,7), which collides with the input bar (6,7); k = 3, t = 8 *)
Theorem sweep_legacy_refuted_no_input_repeats :
  exists bars L, (forall a, In a bars -> fst a < snd a) /\ no_repeats bars = true /\ sweep true bars = Some L /\
    exists (k : nat) (t : Q), (1 <= k)%nat /\ ~ (pl_eval (nth (k - 1) L []) t == land bars k t).
Proof. exact legacy_refuted_created. Qed.
Print Assumptions sweep_legacy_refuted_no_input_repeats.

(* the pinned code raises IndexError on a diagram without rows (exact.py:263 A[-1]) *)
Theorem empty_diagram_legacy_refuted :
  exists dgms h, nth_error dgms h = Some [] /\ exact_landscape true false dgms h = ErrIndex.
Proof. exact legacy_empty_refuted. Qed.
Print Assumptions empty_diagram_legacy_refuted.

(* ---- glue: hom_deg selects the diagram; one trailing infinite bar is dropped ---- *)
Theorem hom_deg_selects : forall s g dgms h dg, nth_error dgms h = Some dg ->
  exact_landscape s g dgms h = exact_landscape s g [dg] 0.
Proof. exact glue_select. Qed.
Print Assumptions hom_deg_selects.

Theorem hom_deg_out_of_range : forall s g dgms h, (length dgms <= h)%nat -> exact_landscape s g dgms h = ErrIndex.
Proof. exact glue_out_of_range. Qed.
Print Assumptions hom_deg_out_of_range.

Theorem trailing_inf_removed : forall s g dg bars b, finite_bars dg = Some bars ->
  exact_landscape s g [dg ++ [(b, None)]] 0 = run_sweep s bars /\
  (dg <> [] -> exact_landscape s g [dg] 0 = run_sweep s bars).
Proof. intros. split. apply glue_trailing_inf; assumption. apply glue_finite; assumption. Qed.
Print Assumptions trailing_inf_removed.

Theorem empty_diagram_no_depths : forall s dgms h, nth_error dgms h = Some [] -> exact_landscape s true dgms h = Ok [].
Proof. exact glue_empty. Qed.
Print Assumptions empty_diagram_no_depths.

Example glue_nonvacuous :
  exact_landscape false true [[(0, Some 2)]; [(1, Some 3); (0, None)]] 1 = Ok [[(1, 0); (4 # 2, 2 # 2); (3, 0)]].
Proof. vm_compute. reflexivity. Qed.
